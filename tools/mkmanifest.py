#!/usr/bin/env python3
"""Regenerates MANIFEST.json from the table below (keeps it valid at all times)."""
import json
import os

HERE = os.path.dirname(os.path.dirname(os.path.abspath(__file__)))
ALL = [f"C{i:02d}" for i in range(1, 21)]

# property -> (technique, level text, level note, design ref)
CLAIMED = {
    "C04": ("Lean 4 proof: invariant by induction over operation sequences (carrier-independent) + op-sequence "
            "correspondence model/implementation + control-flow IR of check/spend regenerated from the Python source on every run and proved equal to the model's step",
            "Machine-checked: for every finite operation sequence on every carrier (IEEE doubles included) the accountant's "
            "own total passes the very comparison the code performs against the ceiling (run_fits/new_fits), refused "
            "operations are no-ops, spends are append-only; over R this is total <= ceiling (total_le_ceiling). The Lean "
            "model is the executable definition the driver runs; it is compared op by op, bit for bit at slack 0, with the "
            "real BudgetAccountant on generated sequences on every run, and the invariant is also checked directly on "
            "the implementation (incl. exact rational recomputation). "
            "CONTROL-FLOW TIE (harness/translate/accountantir.py, DPL/Model/AccountantIR.lean): the bodies of check, spend and the slack setter (with the comparison operators of utils.Budget they use) are re-read from /repo's AST on every run, emitted as IR terms, and the generated obligations prove that the IR interpreter run on them IS the model's step function for any carrier (genCheck_ok, genSpend_ok, genSetSlack_ok, getters_ok, total_returns_budget); accountant_methods_as_coded, run_coded_fits, and check_lt_cex / check_no_delta_cex / spend_append_first_cex show the tie discriminates.",
            "Trusted: Lean kernel + Mathlib, axioms propext/Classical.choice/Quot.sound; hand-written model tied to the "
            "code by sampled correspondence; float rounding of sums not modelled (1e-12 exact-arithmetic excess is "
            "checked, not proved).", "§6 C04"),
    "C05": ("Lean 4 proof: model = independently stated KOV spec (equalities, permutation invariance, monotonicity), and "
            "soundness of the reported total for adaptive composition of kernels in the pure-DP / slack-0 regime + "
            "pure-function correspondence and 60-digit reference check",
            "Machine-checked over R about the same `totalCore` the driver runs: delta fold = 1-(1-slack)*prod(1-d_i) "
            "(total_delta_eq), epsilon = min(sum, DRV, KOV) with the coded term = eps*tanh(eps/2) (total_eps_eq, "
            "term_eq_tanh), slack 0 = basic composition, invariance under List.Perm, monotone under appending a spend, "
            "delta in [0,1]. Tied to the code by bit-exact (slack 0) / 1e-12 (slack>0) comparison of the public pure "
            "`total(spent_budget=, slack=)` with the driver on lists of 0..200 spends, and checked directly against an "
            "independent 60-digit decimal/fractions KOV evaluation (closeness, never below, permutation, monotonicity). "
            "SOUNDNESS (pure regime): accountant_total_sound_pure / accountant_run_sound_pure - with slack 0 and every recorded delta 0 the reported epsilon is the sum, and ANY adaptive composition of kernels that are eps_i-DP respectively satisfies mu S <= e^total mu' S on every measurable set (Compose.adaptive_composition_list); the general statement (delta > 0, slack > 0) is kept as `def accountant_total_sound_full : Prop` (Kairouz-Oh-Viswanath, cited).",
            "Trusted: Lean kernel + Mathlib; that the KOV expression is a valid composition bound is cited, not proved; "
            "IEEE rounding not modelled (deviations beyond the property's slack near slack=1 are a listed known finding).",
            "§6 C05"),
    "C17": ("Lean 4 proof: CMS calibration identity in both branches, call-site arguments, regularisation consistency, row "
            "norms, perturbation shape + Vector interposition and optimiser-argument observation",
            "Machine-checked: for the vector mechanism as coded, in both branches 0 < eps', 0 <= Delta and "
            "eps' + 2 log(1 + c s/(alpha + n Delta)) = eps with scale 2s/eps' — exactly Chaudhuri-Monteleoni-Sarwate's rule "
            "for curvature c s and Lambda = alpha/n; the call site passes c = 1/4, alpha = 1/C, s = sqrt(norm^2+1) with "
            "intercept, the mechanism's Lambda equals the objective's l2 strength, each one-vs-rest problem gets eps/k and "
            "k(eps/k) = eps, clipped and augmented rows respect the norms, noisy - clean = b.w/n + Delta |w|^2/2 with "
            "gradient b/n + Delta w. Tied to the code by interposing Vector (arguments reaching it), evaluating the returned "
            "objective/gradient at probe points, observing the arguments that reach the optimiser (row norms, l2 strength). "
            "The LAW of the noise vector is proved as well: four Gamma(d/4) draws give |b| ~ Gamma(d, rate eps'/(2s)) in both "
            "branches and at the fit call site (noise_norm_law, fit_noise_norm_law), the normalised Gaussian direction is the "
            "uniform (normalised surface) measure on the sphere - via rotation invariance and a uniqueness theorem for "
            "rotation-invariant probability measures on the sphere proved here with characteristic functions - and b = r u "
            "with independent r, u (noise_vector_law). CMS Theorem 9 (that this noise law gives eps-DP of the minimiser) is "
            "cited; the KS tests on the real sampler stay as supporting validation. "
            "CMS THEOREM 9, REDUCED (DPL/Proofs/LogRegCMS*.lean): the hypotheses on the loss are theorems for the logistic loss the code optimises (logistic_loss_hypotheses: explicit derivatives, |l'| <= 1, 0 < l'' <= 1/4, convexity; logistic_c_is_quarter: the coded function_sensitivity 0.25 IS that bound and is attained), per_record_gradient_bound, noise_vectors_close (|b-b'| <= 2s), noise_density_ratio_le (<= e^eps'), rank_one_jacobian (det(I+uv^T) = 1+v.u over Matrix (Fin d)), cms_budget_exact, and cms_theorem9_reduced: eps-DP given the change-of-variables formula for the minimiser map (explicit hypothesis, CMS 3.3) and Lemma 10's rank-two Jacobian bound - FOR s <= 1. For s > 1 the coded term c*s/alpha is smaller than the c*s^2/alpha the Jacobian ratio costs: cms_privacy_budget_split_cex, call_site_intercept_s_gt_one (with an intercept the augmented norm always exceeds 1) and cms_density_cex (a concrete d = 1 instance where the change-of-variables densities differ by more than e^eps) are proved. The property as stated prescribes exactly the coded rule (eps' = eps - 2 log(1 + c s/alpha)), which the check confirms; the mismatch with what CMS prove is recorded in DESIGN 11.7 as an observation, not as a violation of C17.",
            "Trusted: Lean kernel + Mathlib; sklearn's LinearModelLoss is taken as the clean objective; scipy/joblib.",
            "§6 C17"),
    "C18": ("Lean 4 proof: bisection bracket invariant (any carrier) + spendable/maximal/antitone theorems over R + "
            "correspondence and spend-back experiment on the implementation",
            "Machine-checked: the returned epsilon is the midpoint of a bracket whose lower end the code's own test "
            "accepted and whose upper end it rejected (any carrier, remaining_bracket); over R: width ceil/2^n, every "
            "x <= eps_r - ceil/2^(n+1) is spendable k times and is accepted by the model's own `spend`, every "
            "x >= eps_r + ceil/2^(n+1) reaches the ceiling, 0 <= eps_r <= ceiling, antitone in the history, delta closed "
            "form exact ((x^(1/k))^k = x) and within [0, ceiling]. Tied to the code by comparing remaining(k) with the "
            "driver (bit-exact at slack 0) and checked directly by the spend-back experiment of the property's quantifier.",
            "Trusted: Lean kernel + Mathlib; number of iterations of the double-precision loop is observed (>= 52 or exact "
            "root), not proved; two rounding regions are listed known findings.", "§6 C18"),
    "C01": ("Lean 4 proof: exact laws of the transcribed samplers (Lebesgue measure of preimages / branching recursion) and "
            "epsilon-ratio bounds for all seven families + formula anchors (32 sub-expressions of the samplers re-read from the "
            "Python source on every run and proved equal to the model's) + exact-law extraction from the running code and "
            "direct ratio check",
            "Machine-checked over R about the samplers as coded: Binary's flip/keep sets have measure 1/(e^eps+1), "
            "e^eps/(e^eps+1) and ratio <= e^eps; the geometric noise map has atoms (1-r)/(1+r) r^|k| (exact cells, "
            "measurability proved) and is eps-DP atom-wise for |x-x'| <= sens, lifted to every output set and through any "
            "input-independent post-processing (truncated and folded geometric for integer, half-integer and infinite "
            "bounds); exponential selection returns index i exactly on [cum_{i-1}, cum_i) and is eps-DP with base measure "
            "(scale eps/(2 sens); monotonic eps/sens; degenerate sensitivity 0; the max-shift cancels); bernoulli_neg_exp "
            "returns 1 with probability e^-gamma; permute-and-flip: the sampler's own recursion equals the closed law and is "
            "eps-DP for any number of candidates; categorical unbalanced (factor 2) and balanced (equal normalisers), "
            "hierarchy utilities symmetric and in range. PARTIAL: the categorical balanced flag is decided with isclose "
            "(rtol 1e-12): cat_dp_partial carries 'flag => equal normalisers', cat_dp_full is kept unproved; the "
            "multi-uniform samplers (bernoulli_neg_exp, permute-and-flip) are proved as PUSH-FORWARDS of the i.i.d. uniform "
            "stream measure (Measure.infinitePi unif01) under the model's own list functions - prefix/shift independence, "
            "a bind law over countably many disjoint boxes, stop law of the inner loop, P[1] = e^-gamma for every gamma < "
            "fuel, permute-and-flip's run law = closed pmf, returns a.s., eps-DP on every candidate set "
            "(paf_sampler_dp[_monotonic]); single-uniform samplers lifted to every output set under unif01 "
            "(binary/geom/exp_sampler_dp). Tied to the code by (i) sampler outputs under scripted "
            "uniforms vs the driver, (ii) the exact pmf of the RUNNING sampler extracted by break-point bisection / decision-"
            "tree enumeration vs the model's closed-form law, and the property is checked directly on the extracted pmf "
            "(every neighbour pair and atom >= 1e-9, slack 1e-6). "
            "Formula anchors (harness/anchor_specs_c01.py): 32 sub-expressions of Binary / Geometric / Exponential / PermuteAndFlip / ExponentialCategorical (scales, both sides of every threshold test, branch values) are re-read from /repo's AST on every run and proved equal to the model's terms, with 7 assembly theorems (binaryRandomise_eq, geomRandomise_eq, expScale_eq, ...): a changed formula breaks an obligation at lake build.",
            "Trusted: Lean kernel + Mathlib; random() uniform on the 53-bit grid with independent draws; the law extractor; "
            "u = 1/2 and zero-width domains belong to C12.", "§6 C01"),
    "C02": ("Lean 4 proof: (eps,delta) theorems on all measurable sets for the Laplace family, uniform, staircase, bounded-noise "
            "Laplace, the classical Gaussian (Mathlib's gaussianReal) and - given the private side of the root - bounded-domain "
            "Laplace and the analytic Gaussian (Balle-Wang sufficiency proved); calibration identities; bracket invariants of "
            "the root finders (any carrier) + formula anchors + calibration correspondence and 60-digit hockey-stick evaluation",
            "Machine-checked (42 theorems): Laplace with the coded scale is (eps,delta)-DP on every measurable set (density "
            "ratio, normalisation via the Gamma integral, lift to sets), also after any measurable post-processing "
            "(truncation, folding); uniform; staircase for every gamma and the sampler's parameters; snapping identity "
            "(Mironov cited); bounded-noise Laplace end to end (overlap ratio, tail mass exactly delta, assembled for "
            "measurable S); bounded-domain Laplace: the normaliser bound that replaces Holohan et al. Lemma 3.4 is PROVED, "
            "density ratio <= e^eps/(1-delta) for any b with f(b) <= b, measure-level inequality; classical Gaussian end to "
            "end for 0 < eps <= 1 with the coded sigma (tail facts proved for the true erfc); Balle-Wang Theorem 8 "
            "sufficiency PROVED and the coded b+/b- are that expression; discrete-Gaussian accumulators are the partial sums "
            "and the returned scale has objective <= 0; bracket invariants of all three root finders for any carrier. "
            "REMAINING (kept as `def ..._full : Prop`): bounded_domain_dp_full and analytic_gauss_dp_full are reduced exactly "
            "to 'the returned bracket midpoint lies on the private side of the root', which is not provable even in exact "
            "arithmetic and is measured on every run; CKS Thm 7 (discrete Gaussian end to end) and the link between the "
            "double-precision erfc and the true one are cited/validated. Closed forms are re-read from /repo's AST on every "
            "run and proved equal to the model's (formula anchors). Tied to the code by reading the scale actually used off "
            "the running sampler; the property itself is evaluated at 60 digits (hockey-stick divergence over displacements "
            "and positions, incl. live-object parameter assignment). "
            "Post-processing for metric-DP kernel families (metricDP_postprocess) and the folded-Laplace kernel (foldLapKernel_metricDP, lapFamilyKernel_metricDP) used by the C07/C08 law-level theorems.",
            "Trusted: Lean kernel + Mathlib; Mironov Thm 1 and CKS Thm 7 enter as explicit hypotheses; harness/contlaw.py "
            "(60-digit laws); numeric erf/erfc Float instance (checked against math.erf/erfc on every run). Open findings: "
            "five classes keep a stale calibration after a parameter assignment.", "§6 C02"),
    "C19": ("Lean 4 proof: moments of the geometric, Laplace, truncated, folded and bounded-domain Laplace, uniform and Gaussian "
            "laws equal the coded closed forms (integrals and series computed), mse decomposition, monotonicity + formula "
            "anchors + closed-form correspondence and 60-digit moments of the law built from the sampler's own scale",
            "Machine-checked (27 theorems): geometric variance (series over Z) = coded expression, mean 0; Laplace variance "
            "2b^2, mean 0; truncated Laplace (push-forward under the clamp) and bounded-domain Laplace (conditioned law): "
            "mean - v = coded bias and second moment - mean^2 = coded variance for a value inside a finite domain, with all "
            "integral evaluations PROVED (FTC with explicit antiderivatives), tail masses and normalisation; folded Laplace: "
            "the reflection map of the model's `_fold` is the fold map and the mean of the folded law - v = coded bias (two "
            "geometric series over the periods); uniform; Gaussian for Mathlib's N(0,1) with no hypothesis left; mse = "
            "variance + bias^2; variance antitone in epsilon / monotone in sensitivity; zero-scale moments; and "
            "truncated_moments_full_cex: the full statement (any value) is FALSE for the code - the regions where the code's "
            "closed forms are wrong (value outside the domain, infinite bounds, cancellation) are the listed open findings. "
            "Closed forms are re-read from /repo's AST on every run (symbolic value of each method body) and proved equal to "
            "the model's. Tied to the code by comparing bias/variance/mse with the driver; checked directly: moments at 60 "
            "digits from the exact pmf / closed-form law with the scale the SAMPLER uses, incl. live-object sequences.",
            "Trusted: Lean kernel + Mathlib; harness/contlaw.py; float cancellation validated numerically.", "§6 C19"),
    "C03": ("Lean 4 proof: the LAWS of the additive samplers as coded (push-forward of the uniform / normal / gamma product measure "
            "under the sampler map): 4-uniform Laplace identity, (N1+N2)/sqrt2, sum of four Gamma(d/4), rejection = conditional "
            "law, CKS acceptance; additivity/input-independence/linearity; post-processing + scripted-stream correspondence on "
            "both RNG back-ends; statistical validation (DKW 1e-14) as supporting evidence + formula anchors (44 sub-expressions of the samplers re-read from the Python source on every run)",
            "Machine-checked (81 theorems): the Holohan-Braghin identity — log(1-U1)cos(pi U2) + log(1-U3)cos(pi U4) pushed "
            "forward from the uniform measure on [0,1)^4 IS the standard Laplace law (characteristic functions: each term "
            "has 1/sqrt(1+t^2), uniqueness from charFun), hence Laplace.randomise on four uniforms has law "
            "Laplace(x, sens/(eps-log(1-delta))), the truncated/folded mechanisms are that law pushed through truncate/fold, "
            "and the 4-uniform SAMPLER ITSELF satisfies the (eps,delta) inequality on every measurable set (connects C02's "
            "laplace_dp to the code's sampler); (N1+N2)/sqrt2 of independent standard normals is N(0,1) and Gaussian.randomise "
            "has law N(x, sigma^2) (the law C02's gauss_classical_dp is about); four independent Gamma(d/4,1) scaled and "
            "summed are Gamma(d, 1/scale) (mgf uniqueness on a half-line); over an i.i.d. stream the first accepted draw of a "
            "rejection loop has the conditional law P(A and B)/P(A) (bounded-domain Laplace; discrete Gaussian given i.i.d. "
            "passes: probability e^{-y^2/2 sigma^2}/sum); -log(1-U) ~ Exp(1); threshold/uniform laws; CKS acceptance identity "
            "and bernoulli_neg_exp stop law; staircase segment/mixture density; randomise x s - x is the same function of the "
            "stream for all x and linear in the calibrated scale; truncation/folding/snapping are post-processing by maps of "
            "the bounds only. Over the i.i.d. UNIFORM stream measure (Measure.infinitePi unif01; machinery shared with C01): the discrete-Gaussian CKS loop - geometric count law, one-pass law, renewal identity, the unbounded loop returns y with probability EXACTLY e^{-y^2/2 sigma^2}/sum, the fuelled model refines it and conversely for all large fuels (cks_loop_law_full: mu ret <= dG <= mu ret + mu abort; cks_growing_fuel_law); the batch layout of the rejection loops (sample i of a batch of s reads uniforms i, s+i, 2s+i, 3s+i) is injective and turns the uniform stream into an i.i.d. Laplace candidate stream, so the bounded-domain / bounded-noise samplers in the code's own consumption order have the conditioned Laplace law and satisfy C02's (eps,delta) inequality (boundedDomain_sampler_dp, boundedNoise_sampler_dp); Snapping with a fair bit and a continuous uniform: sign*log U is Laplace, round-half-up cells, released grid pmf, pure eps_eff-DP in exact arithmetic (not Mironov's floating-point theorem). QUANTITATIVE fuel bound (cks_abort_bound, cks_loop_law_quantitative): P[abort] <= (4096 tau^64/64! + e^{-4096 tau} + e^{e-4096}) / ((1-e^{-tau}) (1/2) e^{-tau^2 sigma^2/2}) for the model's fixed fuels 64/4096/4096 (< 1e-6 at scale 1; honest, not small for large scales where the geometric cap is really reached), with per-component bounds cks_coin_fuel_bound, cks_geometric_cap_bound; the snapping sampler's dyadic uniform (52 mantissa bits + geometric exponent from 32-bit words) is proved to be the ROUND-DOWN of a continuous uniform to the floating-point grid, exponent cap explicit (snap_uniform_closed_form, snap_round_down_grid, snap_uniform_law). REMAINING: composing that with the log step and the floating-point evaluation of log (Mironov's theorem is cited); sphere uniformity is proved under C17, not restated here; Bingham's acceptance ratio is inverted (proved: bingham_accept_cex; open finding). Tied to the code by running every randomise on scripted streams against the driver on BOTH back-ends "
            "(SystemRandom script and numpy RandomState script; outputs and numbers of draws consumed), live-object sequences, "
            "repeated evaluation of released functions; statistical law tests at the DKW 1e-14 level are supporting evidence. "
            "Formula anchors (harness/anchor_specs_c03.py): 44 sub-expressions (the 4-uniform Laplace combination, Gaussian unit draw on both back-ends, uniform and staircase pieces, Snapping's scale/offset/round/clamp pipeline, the fold step) are re-read from /repo's AST on every run and proved equal to the model's, with 10 assembly theorems.",
            "Trusted: Lean kernel + Mathlib; library primitives (random() uniform, normalvariate/standard_normal normal, "
            "gammavariate/gamma gamma, numpy geometric) have the laws their names say; calibrated scales of the root-finder "
            "mechanisms are read from the object (C02's subject). Open findings: Bingham; six classes keep a stale scale "
            "after a parameter assignment.", "§6 C03"),
    "C06": ("Lean 4 proof: non-interference of the release-plan DSL, instantiated for every tool and estimator plan; "
            "non-interference of a statement-level taint IR (loops included) with the IR of 24 entry points regenerated from "
            "the Python sources on every run (translator) and decided in Lean + forced-"
            "output two-dataset experiment on the implementation",
            "Machine-checked: in a release plan data can reach a mechanism parameter, the continuation or the release only "
            "through a mechanism input, so for every plan, every two datasets with agreeing probes and every forced output "
            "sequence the configured calls and the release coincide (Plan.noninterference; no axioms) — instantiated for "
            "every tool plan (mean/var/std/sum/nan-variants/count_nonzero/wrap_axis/histogram/histogramdd) and estimator plan "
            "(StandardScaler, LinearRegression, PCA, LogisticRegression split probe-free; GaussianNB, KMeans, forest with "
            "their occupancy probes listed). This is true by construction of the DSL; that the CODE follows the plans is the "
            "trace correspondence of C07/C08, and the hyperproperty itself is tested on the implementation: two arbitrarily "
            "different same-shape datasets with ALL randomise calls forced to identical values must give bit-identical call "
            "schedules, mechanism parameters and releases (12 tools, 7 estimators, partial_fit batches, drifting KMeans "
            "centres). "
            "STATIC TIE (harness/translate/taint.py, DPL/Model/TaintIR.lean): 24 entry points (tools, histograms, covariance_eig, StandardScaler.partial_fit, GaussianNB internals, _construct_regression_obj) are lowered on every run to a statement IR (assign / declass = mechanism result / probe / branch / loop / ret) with contents and shape of every variable split; `flowsOk` is decided by decide +kernel per entry point and static_taint_sound proves non-interference for every accepted function (two environments that agree outside the data parameters configure the same mechanism calls and return the same values, for every interpretation of the pure operations, loops included). Not followed (dynamic tie only): LinearRegression.fit, KMeans, PCA, forest. "
            "LAW LEVEL (DPL/Proofs/PlanLawNI*.lean): plan_law_noninterference - for ANY kernel family (no DP, no measurability assumption) two datasets on which every call input and probe agree along every path have EQUAL output laws (measures), plan_law_determined_by_inputs, a counter-example showing the hypothesis is needed, instances for mean / histogram / histogramdd / StandardScaler, and static_taint_law_sound (the loop-free fragment of the taint IR under kernels).",
            "Trusted: Lean kernel; 'same shape' includes the group-occupancy pattern for GaussianNB/KMeans/forest (probes); "
            "every data-dependent draw goes through randomise; data-independent randomness fixed by an integer seed.",
            "§6 C06"),
    "C07": ("Lean 4 proof: sensitivity lemmas for datasets of every size, split identities, per-tool privacy-loss bounds on the "
            "release plans LIFTED TO OUTPUT LAWS (each tool is eps-DP on every measurable set, by adaptive composition over "
            "Laplace / geometric kernels), "
            "release plans, rank-form density ratio for the quantile family + trace correspondence with forced outputs and "
            "direct loss accounting on the implementation",
            "Machine-checked over R for lists of every length n >= 1, any position of the replaced record and arbitrary (also "
            "out-of-bounds) records, because the plan clips first: mean (<= (u-l)/n), sum (<= u-l), variance "
            "(<= ((u-l)/n)^2 (n-1)), non-zero count (<= 1), integer-dtype sum, histogram bins (<= 1 per bin, at most two bins, "
            "none when the record stays in its bin; any number of dimensions and edges); wrap_axis and multi-quantile splits "
            "sum to epsilon and a record lies in exactly one entry of each cell; per-tool statements 'same configuration, same "
            "release, every input within its sensitivity, privLoss <= eps (<= 2 eps for histograms)' for scalar and axis "
            "variants; the density exp(eps/2 util)/Z of the quantile family changes by at most e^eps at every y under one "
            "replacement (real interval integral). PARTIAL: the nan-variants and weighted histograms are proved only on the "
            "regions where the code is right (NaN-free / 0 in [l,u] / unweighted) with Lean counter-examples for the rest — "
            "listed open known findings; the step from the coded interval representation of the quantile to the rank form is "
            "tied by correspondence. Tied to the code by running each tool with forced mechanism outputs against the Lean plan "
            "(classes and counts exact, parameters and inputs 1e-9, release); the property is checked directly by pairing the "
            "invocations of runs on neighbouring datasets and, for quantiles, by the exact density of the constructed mechanism. "
            "OUTPUT LAWS (DPL/Proofs/ToolsCompose*.lean, on C08's composition layer): mean/sum/var/std/intsum_tool_dp, wrap_axis_tool_dp and the axis variants, count_tool_dp, hist_tool_dp, histogram(dd)_tool_dp: law p D S <= e^eps law p D' S for every measurable S, for any metric-DP kernel family, and hypothesis-free with truncated-Laplace kernels (mean, sum and axis variants) and the geometric kernel derived from C01 (counts, histograms); LaplaceBoundedDomain (var/std) and GeometricTruncated with sensitivity != 1 keep the metric-DP hypothesis. "
            "END TO END (DPL/Proofs/KernelBridge.lean): the kernels ARE the samplers - lapKernel / truncLapKernel / geomKernel equal the push-forward of the uniform measure under the model's Laplace (four uniforms), truncated-Laplace and geometric sampler functions (via C03's and C01's law theorems) - hence mean_tool_end_to_end, sum_tool_end_to_end, count_tool_end_to_end: unif (run D in S) <= e^eps unif (run D' in S) for the explicit function `run` of data and uniform draws (clip, aggregate, sample, truncate), with no intermediate object assumed.",
            "Trusted: Lean kernel + Mathlib; numpy statistics and bin assignment; the reshape of n-d arrays to records x cells "
            "in the harness; sequential/parallel composition cited.", "§6 C07"),
    "C08": ("Lean 4 proof: compositional privacy-loss calculus on release plans, per-estimator model_privloss, split identities "
            "and sensitivity lemmas, and adaptive sequential composition over Markov kernels (bounded trace loss => the output "
            "LAW of the plan is eps-DP on every measurable set; StandardScaler end to end with Laplace kernels) + trace correspondence with replayed outputs and direct loss accounting on the implementation",
            "Machine-checked over R for every dataset, every single-record replacement and every forced-output sequence: "
            "GaussianNB (<= eps, <= 2 eps on a label change), KMeans with _calc_iters/_split_epsilon as coded (<= 2 eps; <= eps "
            "when the record stays in its cluster), LinearRegression with/without intercept and multi-target (<= eps), "
            "StandardScaler (<= eps, list-level variance sensitivity as hypothesis), PCA (<= eps relative to the cited "
            "eigenvalue/Bingham hypotheses); all epsilon-split identities; corner-product, square, shifted-square, squared-"
            "deviation, group-change and count sensitivities; disjoint tree subsets and leaf counts; the pre-repair formulas "
            "are proved to exceed the budget (regression witnesses). ADAPTIVE COMPOSITION is now a theorem (DPL/Proofs/ModelsCompose*.lean): "
            "adaptive_composition_pure (mu<=e^e1 mu', kappa<=e^e2 kappa' => mu(x)kappa <= e^(e1+e2) mu'(x)kappa' on every "
            "measurable set of the product), its bind and n-fold list forms; a measure semantics Plan.law for release plans "
            "(dirac / Measure.bind), and plan_dp_of_lossLe: metric-DP kernels + the existing bound 'trace loss <= B for every "
            "forced-output sequence' + agreeing probes => law p D S <= e^B law p D' S; instantiated hypothesis-free for "
            "StandardScaler with truncated-Laplace kernels (scaler_fit_dp_laplace, via C02's density ratio) and for GaussianNB "
            "(gnb_fit_dp, lower-integral form). PARTIAL: forest (counting level), LogisticRegression (split only; mechanism is "
            "C17); KMeans / LinearRegression / PCA have the loss bound but not yet the law-level corollary. Tied to the code by fitting each model for real with "
            "recording and running the Lean plan on the same data with the recorded outputs forced (classes/counts exact, "
            "parameters and inputs 1e-9); the property is checked directly on the implementation by pairing the invocations "
            "of fits on neighbouring datasets under identical forced outputs.",
            "Trusted: Lean kernel + Mathlib; cited: eigenvalue perturbation bound, Bingham's guarantee; "
            "numpy tie order in argsort (GaussianNB count repair) excludes a third of fits from the trace comparison.",
            "§6 C08"),
    "C09": ("Lean 4 proof: soundness of a charge-skeleton checker (every accepted path is resolve*, check(e,d), noise only, "
            "spend(e,d), exit — or refused / delegated / per-cell) with the skeleton of all 36 tool and estimator entry points "
            "regenerated from the Python sources on every run (translator) and decided in Lean; charge-once theorems for scalar, multi-cell and nested multi-quantile queries and for model fits over "
            "the accountant machine (control flow for any carrier) + scenario correspondence and before/after totals of all "
            "live accountants",
            "Machine-checked, for ANY carrier (so also for doubles): a scalar query either passes its check and appends "
            "exactly one spend (eps,0) to the resolved accountant — explicit argument over default — leaving every other "
            "accountant unchanged, or returns the check's error with no mechanism call and no change; with the coded up-front "
            "test (validate eps, then 'the exact sequence of per-cell spends fits') a multi-cell query and a multi-quantile x "
            "axis query are either refused up front or all their spends are appended — never refused part-way — under the "
            "hypothesis that a fitting history still fits without its last spend, which is discharged over R from C05's "
            "monotonicity (and then the spends sum to eps); a model fit checks first, runs its sub-queries on throw-away "
            "accountants that change none of the caller's, and spends once, last, on the accountant fixed at construction. "
            "Tied to the code by running every tool (1..400 output cells, multi-quantile) and all 8 models in every accountant "
            "state (unlimited; remaining <, = exactly, > eps; slack) and resolution mode (explicit / with-block / set_default, "
            "construction-time default for models) against the model, and checked directly: totals of ALL live accountants "
            "before/after, mechanism invocations and fitted state before an error.",
            "Trusted: Lean kernel + Mathlib; prefix-monotonicity of the accountant total on doubles is validated on exact-fit "
            "budgets, not proved; estimator bodies are abstract here (C08 owns them).", "§6 C09"),
    "C10": ("Lean 4 proof: clip helpers in bounds / identity on the domain / idempotent for the function as coded (any linear "
            "order); soundness of a clipped-before-use analysis (run on D = run on clip D for every lawful semantics) with the "
            "skeleton of 27 entry points regenerated from the Python sources on every run (translator) and decided in Lean + exact helper correspondence and seeded end-to-end equality f(D) == f(clip D)",
            "Machine-checked: for the whole clip_to_bounds as coded (exact-equality fast path + per-feature path) and the 1-D "
            "entry the tools use: output in [lower, upper] in every coordinate, identity on in-domain data, idempotent — for "
            "ANY linear order, hence for non-NaN doubles; fast path = per-feature path when taken; over R: clip_to_norm rows "
            "have norm <= c, identity inside the ball, idempotent; any computation that starts with the clip gives the same "
            "result on D and clip(D). Tied to the code by exact comparison of the helpers' outputs with the driver on "
            "generated arrays/bounds (nearly-equal per-feature bounds, zero width, inf, NaN rows) and checked directly: the "
            "three helper laws on the implementation, and bit-identical seeded results of every tool and bounds-/norm-domain "
            "model on D and on an independently clipped D. "
            "STATIC TIE (harness/translate/clips.py, DPL/Model/ClipIR.lean): the skeleton (clip / reshape / assign / use at a mechanism, release or effect / ret, under seq / branch / loop with the dependencies of the conditions) of 27 entry points is regenerated on every run; clippedBeforeUse is decided in Lean per entry point (clean / raw / tainted abstract interpretation) and static_clip_sound proves that an accepted skeleton observes the same mechanism inputs, releases and return value on D and on clip(D) for every lawful semantics (declared clip idempotent, re-arrangements commute with it). Not covered: count_nonzero (no bounds), PCA._fit_full (centring precedes the norm clip).",
            "Trusted: Lean kernel + Mathlib; hand model tied by sampled correspondence; numpy's clip/norm; float norm "
            "rounding (1e-12) observed, not proved; histogram drops (does not clip) out-of-range samples.", "§6 C10"),
    "C12": ("Lean 4 proof: range/typing/termination theorems for truncate, fold as coded (modulo step + loop), rejection "
            "loops, selection, degenerate parameters + formula anchors (64 sub-expressions incl. both sides of every range "
            "test, re-read from the Python source on every run and proved equal to the model's) + scripted-uniform correspondence with hang detection",
            "Machine-checked: truncate in bounds and identity on the domain (any linear order); the coded fold lands in "
            "[lower, upper] after at most 2 reflections for lower <= upper, zero-width domain returns the point (over R); "
            "rejection loops return the first in-range draw of the batch (any carrier); selection returns an index of the "
            "candidate list with u < cum[i] (never a zero-probability candidate), categorical/binary/permute-and-flip "
            "return members of their domain; geometric family returns integers inside the bounds; redraw loop stops; "
            "degenerate parameters (sensitivity 0 / scale 0) give the input mapped into the domain for every bounded "
            "mechanism incl. Snapping; Snapping's final clamp. Tied to the code by running randomise of every bounded "
            "mechanism under scripted uniforms (extremes 0, 1-2^-53, 1/2, break-point neighbours; zero-width, narrow, "
            "infinite domains) against the driver, and checked directly (range, type, no RecursionError/OverflowError, hangs "
            "observed through time-outs). "
            "Formula anchors (harness/anchor_specs_c12.py): 64 sub-expressions of _truncate, _fold (width, modulo thresholds, while-test, reflections), the geometric and Laplace noise formulas, Snapping's bound / truncate / round pipeline and Binary's flip test are re-read from /repo's AST on every run and proved equal to the model's, with 11 assembly theorems (truncate_eq, fold_eq, foldLoop_step, ...).",
            "Trusted: Lean kernel + Mathlib; epsilon = inf is not expressible over R (covered by correspondence); that the "
            "fold on doubles stays in range, almost-sure termination of rejection loops and Bingham's unit norm on doubles "
            "are observed, not proved; _find_scale and Bingham not modelled.", "§6 C12"),
    "C11": ("Lean 4 proof: completeness of the warning-guard table (decide +kernel, lifted to any number of dimensions) + model "
            "of the warnings filter + table regenerated from the Python AST on every run + exhaustive run-time matrix",
            "Machine-checked: for every entry point in the table (24: 15 tools, 8 estimators, covariance_eig) and every "
            "subset of omitted domain parameters, deriving a parameter from the data implies a PrivacyLeakWarning "
            "(warn_complete; histogramdd/2d for any number of dimensions, list or tuple ranges, partial ranges, mixed bins); "
            "under the `always` filter action the n-th occurrence is delivered like the first, under `once`/`default` it is "
            "not. The table is regenerated from /repo's AST on every run and proved equal to the hand-written one "
            "(gen_eq_hand) and complete (gen_complete). The property is checked exhaustively on the implementation: every "
            "entry point x every subset of omitted parameters x two consecutive calls in a fresh interpreter with the "
            "library's own warning filter in force.",
            "Trusted: Lean kernel; the guard extractor (harness/translate/guards.py); numpy's internal histogram range "
            "fallback is hand-stated and checked on every run; Python's warnings machinery.", "§6 C11"),
    "C13": ("Lean 4 proof: validation chains accept exactly the documented ranges over a Python value domain (iff theorems for "
            "all 21 mechanism classes, accountant, Budget, check_bounds) + chains regenerated from the AST + result-kind "
            "correspondence over the catalogue",
            "Machine-checked over the whole value domain (non-numeric, complex, bool, int, extended rationals with NaN and "
            "+-inf): each mechanism class's constructor and randomise accept EXACTLY the documented ranges "
            "(construct_ok_iff, randomise_ok_iff), hence every invalid parameter of the property's list is refused "
            "(refuse_invalid, refuse_invalid_construct and one theorem per listed class of invalid value); accountant "
            "check/spend/constructor-with-prior-spends refuse any invalid entry wherever it stands and record nothing. The "
            "_check_* chains (flattened along the real MRO), the block order of _check_all/__init__ and `randomise starts "
            "with _check_all` are regenerated from /repo's AST on every run and proved equal to the model "
            "(DPL.Generated.C13Chains). Tied to the code by result-kind correspondence for every entry point x parameter x "
            "catalogue value at construction, via attribute assignment, and after a first successful randomise; checked "
            "directly (must raise, return nothing, record no spend, invoke no mechanism).",
            "Trusted: Lean kernel; the chain extractor (harness/translate/chains.py); structured arguments (labels, utility "
            "lists) abstracted to one flag per test; NaN in parameters the property does not list (Vector alpha, clip norm, "
            "bounds) is reported, not counted.", "§6 C13"),
    "C14": ("Lean 4 proof: randomness-site table (every check_random_state call, global-generator use, draw with the origin of "
            "its generator, random_state hand-over) regenerated from the Python sources on every run (translator) and decided "
            "in Lean against the hand tables (8 obligations: no global draw, mechanisms draw only through a securely obtained "
            "_rng, non-secure draws are exactly the structural sites, hand-overs stay in {None, singleton, SystemRandom}); decision table of check_random_state and provenance of every noise draw per entry point + rng-class "
            "interposition and global-seed experiments",
            "Machine-checked: the decision table of check_random_state(seed, secure); no mechanism ever holds numpy's global "
            "generator; any depth of tool/sub-estimator nesting below random_state=None ends in the OS CSPRNG (a fresh "
            "Generator for Staircase/Bingham only); for all 21 mechanisms, 15 tools, 8 models and covariance_eig every "
            "noise-tagged draw is osCsprng/freshGenerator and none consumes the global generator (unseeded_noise_secure); "
            "the pre-repair plumbing of quantile / forest seeds / empty leaves is proved to violate it. Tied to the code by "
            "recording the class of the generator every mechanism instance actually holds for every entry point, and checked "
            "black-box: two runs after np.random.seed(s); random.seed(s) must differ, and the global states are unchanged by "
            "mechanisms and tools.",
            "Trusted: Lean kernel; which draws are noise vs structural is a modelling decision (listed per entry point); "
            "os.urandom / default_rng quality.", "§6 C14"),
    "C15": ("Lean 4 proof: schedule independence of the seed-before-parallel discipline, partition of the row subsets; what "
            "is handed to the parallel tasks is read off the source on every run (randomness-site translator shared with C14) "
            "and proved to be seeds drawn before dispatch + "
            "repetition / fresh-interpreter / n_jobs experiments",
            "Machine-checked: for every number of tasks, generator, task behaviour and complete schedule the indexed result "
            "list equals the sequential one when seeds are drawn before the parallel section and each task owns its "
            "generator (forest and, as repaired, LogisticRegression); contrast models (shared generator; copied generator) are "
            "proved schedule-/n_jobs-dependent, so the theorem is about the discipline; the row subsets are disjoint (any "
            "carrier) and partition the rows (over R). PARTIAL: bit-reproducibility, seed sensitivity, n_jobs independence on "
            "the real thread/process pools and the tree-index range on doubles are validated on every run (79 entry points: "
            "in-process and fresh-interpreter repetition, different seeds, n_jobs in {1,2,4,8}, scrambled completion order, "
            "interposition confirming seeds are drawn before any task starts), not proved. "
            "STATIC TIE: parallel_tasks_get_seeds - in the hand-over table that DPL.Gen.C14.external_passes proves equal to the one regenerated from the source on every run, what reaches the joblib-delayed one-vs-rest tasks is an integer drawn before dispatch (or None), never a generator object (the defect repaired in b7f8f89 is flagged: shared_generator_flagged).",
            "Trusted: Lean kernel + Mathlib; MT19937 determinism and seed sensitivity; joblib's ordered collection and absence "
            "of shared mutable state in sklearn/numpy; the child-interpreter shim.", "§6 C15"),
    "C16": ("Lean 4 proof: refinement of the _default/old_default machine to a stack for every well-bracketed program + "
            "program-level correspondence with real `with` blocks + scoping-method IR regenerated from the Python source on "
            "every run (translator) and proved to be the model's machine",
            "Machine-checked (core Lean, no Mathlib): the faithful machine (class attribute _default, per-instance "
            "old_default, lazily created default) refines a stack of defaults for every well-bracketed program over "
            "distinct accountants incl. exits by exception (scope_refines_stack), hence exit restores the previous "
            "default, explicit accountants win, calls inside a block charge that block's accountant; re-entering the same "
            "accountant is proved to break restoration (why distinctness is a hypothesis). Tied to the code by executing "
            "generated programs with real BudgetAccountant objects and comparing charged accountant / default identity "
            "after every event with both the model and a stack oracle; and statically: the bodies of __enter__, __exit__, "
            "set_default, pop_default and load_default are re-read from /repo's AST on every run, emitted as terms of a small "
            "imperative IR (DPL/Model/ScopeIR.lean) and the generated obligations prove that its interpreter run on them IS "
            "enterI / exitI / stepI (7 obligations incl. 'no other writer of _default/old_default' and '_default = None'); "
            "with_block_via_ir, exit_never_swallows and three counter-example theorems show what the contracts buy and that "
            "they discriminate.",
            "Trusted: Lean kernel; hand-written model tied by sampled correspondence; CPython's `with` protocol.", "§6 C16"),
    "C20": ("Lean 4 proof: soundness of an alias/heap check over every execution order + alias IR regenerated from the "
            "Python sources on every run (translator) and decided in Lean; bitwise-snapshot experiment on the implementation",
            "Machine-checked: a statement set that passes `check` never writes caller-owned memory along any execution "
            "(any order/multiplicity of statements, any resolution of may-aliases) — caller_unchanged, by induction over "
            "the run; per entry point (15 tools, 3 validation helpers, 10 estimator methods) the alias IR is regenerated "
            "from /repo's current AST on every run and `check … = true` is re-proved by `decide +kernel` (a new in-place "
            "write on a possibly-aliased array breaks that obligation at lake build); fit_transform_eq as corollary. The "
            "property is also checked directly on the implementation: bitwise snapshots of every caller-owned array "
            "across dtypes/layouts/bounds forms, and fit_transform vs fit+transform for PCA/StandardScaler.",
            "Trusted: Lean kernel; the translator (AST -> IR, reaching definitions, callee binding) and its tables of which "
            "numpy/sklearn calls copy, may return views, or write in place; numpy/sklearn copying behaviour is observed, "
            "not modelled.", "§6 C20"),
}

NOT_YET = "not built yet in this round; planned as in DESIGN.md §6/§10 (no technique other than Lean proof will be used)"


def main():
    checks = []
    for p in ALL:
        if p not in CLAIMED:
            continue
        tech, text, note, ref = CLAIMED[p]
        checks.append({
            "property_id": p,
            "quick_cmd": f"./check {p} --tier quick",
            "thorough_cmd": f"./check {p} --tier thorough",
            "evidence_file": f"evidence/{p}.json",
            "replay_cmd_template": "./check replay {path}",
            "engine": "lean-model-correspondence",
            "level_claimed": {"category": "proof", "text": text, "design_ref": ref},
            "level_note": note,
            "technique": tech,
        })
    man = {
        "version": 1,
        "setup_cmd": "cd lean && lake build",
        "hooks": {
            "guard": "DIFFPRIVLIB_VERIF",
            "enable": "no hooks are needed: every seam used (random_state=, in-process wrapping of randomise/constructors, "
                      "warning capture) is public; API-drift shims are applied to third-party modules in the harness process",
            "baseline_off_cmd": "cd /repo && /venv/bin/python -m pytest -ra -q -p no:cacheprovider --timeout=900 "
                                "--continue-on-collection-errors",
            "source_commits": [],
            "add_only": True,
        },
        "engines": [{
            "name": "lean-model-correspondence",
            "path": "check",
            "serves_properties": sorted(CLAIMED),
            "kind_free_text": "Lean 4 + Mathlib property theorems about a hand-written executable model (lean/DPL); "
                              "model tied to /repo on every run by a correspondence check (harness/, line-protocol "
                              "drivers lean/Drivers) and, where present, by Lean facts regenerated from the Python sources",
        }],
        "checks": checks,
        "not_applicable": [{"property_id": p, "reason": NOT_YET} for p in ALL if p not in CLAIMED],
        "notes": "All checks: exit 0 ok, exit 1 + VIOLATION line, exit 2 infrastructure error. VERIF_SEED and VERIF_TIER honoured.",
    }
    with open(os.path.join(HERE, "MANIFEST.json"), "w") as f:
        json.dump(man, f, indent=1)
        f.write("\n")


if __name__ == "__main__":
    main()
