#!/usr/bin/env python3
"""Round-2 seeding prompt: like seed_prompt.py, plus the list of ideas already tried (so that the new ones differ)."""
import glob, json, subprocess, sys, os
pid, wt, n = sys.argv[1], sys.argv[2], (sys.argv[3] if len(sys.argv) > 3 else "2")
base = subprocess.check_output([os.path.join(os.path.dirname(__file__), "seed_prompt.py"), pid, wt, n]).decode()
tried = []
for d in sorted(glob.glob(f"/verif/seeded/{pid}-*")):
    try:
        m = json.load(open(os.path.join(d, "meta.json")))
        tried.append("  - " + m.get("summary", "")[:300])
    except Exception:
        pass
extra = ("\n\nIMPORTANT — the following changes were ALREADY produced by someone else for this property; do NOT repeat them or "
         "close variants of them. Find DIFFERENT mechanisms of failure, in different functions, entry points or parameter "
         "regions of the anchored code (think of: other classes/tools/models covered by the property than the ones below, "
         "state carried between calls, rarely used keyword arguments, inheritance/override interactions, numeric "
         "boundaries, caching, defaults evaluated at import/definition time, copies and views, error paths):\n"
         + "\n".join(tried) + "\n")
print(base.replace("\nFinal answer:", extra + "\nFinal answer:"))
