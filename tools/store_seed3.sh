#!/bin/sh
# tools/store_seed3.sh <Cxx> <first index> — copies /tmp/seed3_<Cxx>/_seed/{1,2} to seeded/<Cxx>-<idx>, removes the worktree
p=$1; k=${2:-6}
for n in 1 2; do src=/tmp/seed3_$p/_seed/$n; dst=/verif/seeded/$p-$((n+k-1)); if [ -d $src ]; then mkdir -p $dst; cp $src/patch.diff $src/demo.py $src/meta.json $dst/; echo stored $dst; fi; done
git -C /repo worktree remove --force /tmp/seed3_$p; git -C /repo worktree prune
