#!/bin/sh
# tools/run_all.sh <tier> <seed> [props...]  — runs the registered checks sequentially, one summary line each
cd "$(dirname "$0")/.." || exit 2
TIER=${1:-quick}; SEED=${2:-0}; shift 2
PROPS=${*:-$(python3 -c "import json; print(' '.join(c['property_id'] for c in json.load(open('MANIFEST.json'))['checks']))")}
for p in $PROPS; do
  s=$(date +%s)
  out=$(VERIF_SEED=$SEED ./check $p --tier $TIER 2>&1); rc=$?
  e=$(( $(date +%s) - s ))
  [ $rc -ne 0 ] && echo "$out" > /tmp/runall_fail_${p}_${TIER}_${SEED}_$(date +%s).log
  echo "$p tier=$TIER seed=$SEED exit=$rc ${e}s $(echo "$out" | grep -c '^KNOWN-FINDING') known | $(echo "$out" | grep -E '^VIOLATION|^INFRA' | head -2 | tr '\n' ' ')"
done
