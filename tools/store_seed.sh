#!/bin/sh
# tools/store_seed.sh <round> <Cxx> <first index> — copies /tmp/seed<round>_<Cxx>/_seed/{1,2} to seeded/<Cxx>-<idx>, removes the worktree
r=$1; p=$2; k=$3
for n in 1 2; do src=/tmp/seed${r}_$p/_seed/$n; dst=/verif/seeded/$p-$((n+k-1)); if [ -d $src ]; then mkdir -p $dst; cp $src/patch.diff $src/demo.py $src/meta.json $dst/; echo stored $dst; fi; done
git -C /repo worktree remove --force /tmp/seed${r}_$p; git -C /repo worktree prune
