#!/bin/sh
# Re-runs every registered quick check on /repo itself so that the committed evidence/*.json describe quick runs.
cd "$(dirname "$0")/.." || exit 2
unset VERIF_REPO VERIF_SCALE
tools/run_all.sh quick ${1:-1}
