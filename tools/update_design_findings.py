#!/usr/bin/env python3
"""Rewrites the block between <!-- FINDINGS-BEGIN --> and <!-- FINDINGS-END --> of DESIGN.md from known_findings.json:
the complete list of repaired defects (fixed) and of open known findings."""
import json, os, re
V = os.path.join(os.path.dirname(os.path.abspath(__file__)), "..")
d = json.load(open(os.path.join(V, "known_findings.json")))
def esc(s): return str(s).replace("|", "\\|").replace("\n", " ")
L = ["<!-- FINDINGS-BEGIN -->", "",
     f"**Complete list, generated from `known_findings.json` by `tools/update_design_findings.py`: {len(d['fixed'])} repaired, "
     f"{len(d['open'])} open.**", "", "Repaired (`fixed:` entries — they suppress nothing; the check reports the violation again if it returns):", "",
     "| property | commit | what failed |", "|---|---|---|"]
for f in d["fixed"]:
    L.append(f"| {f['property']} | {f.get('commit','')} | {esc(f.get('what',''))[:400]} |")
L += ["", "Open (each printed as `KNOWN-FINDING: property=<id> <signature>: …` while its witness still fails; any other violation of the "
      "same property is still a VIOLATION):", "", "| property | signature | what fails |", "|---|---|---|"]
for o in d["open"]:
    L.append(f"| {o['property']} | `{o['signature']}` | {esc(o.get('what',''))[:400]} |")
L += ["", "<!-- FINDINGS-END -->"]
p = os.path.join(V, "DESIGN.md"); s = open(p).read()
block = "\n".join(L)
if "<!-- FINDINGS-BEGIN -->" in s:
    s = re.sub(r"<!-- FINDINGS-BEGIN -->.*?<!-- FINDINGS-END -->", lambda m: block, s, flags=re.S)
else:
    marker = "### 11.3 Per property, as built"
    s = s.replace(marker, block + "\n\n" + marker, 1)
open(p, "w").write(s)
print("findings table:", len(d["fixed"]), "fixed,", len(d["open"]), "open")
